(* C15 -- Results are independent of the units of the axis and linear in the data. *)
From Coq Require Import List Bool Arith ZArith QArith Qcanon.
From NI Require Import Num Base Lookup Linear Interp Spline Tri TriProofs SplineAlgebra LookupProofs LinearProofs LinearExact
  SplineProofs Units UnitsList BilinearList PeriodicSolve PeriodicLane PeriodicUnits PeriodicUnitsTop SplineIndividual UnitsIndividual AdditiveMore.
Import ListNotations.
Local Open Scope Qc_scope.

Theorem C15_linear_scale_data : forall c x1 y1 x2 y2 x : Qc, x2 - x1 <> 0 ->
  calc_frac NumQc (x1, c * y1) (x2, c * y2) x = c * calc_frac NumQc (x1, y1) (x2, y2) x.
Proof. exact calc_frac_scale_data. Qed.
Print Assumptions C15_linear_scale_data.
Theorem C15_linear_additive : forall x1 y1 z1 x2 y2 z2 x : Qc, x2 - x1 <> 0 ->
  calc_frac NumQc (x1, y1 + z1) (x2, y2 + z2) x =
  calc_frac NumQc (x1, y1) (x2, y2) x + calc_frac NumQc (x1, z1) (x2, z2) x.
Proof. exact calc_frac_additive. Qed.
Print Assumptions C15_linear_additive.
Theorem C15_linear_scale_axis : forall c x1 y1 x2 y2 x : Qc, c <> 0 -> x2 - x1 <> 0 ->
  calc_frac NumQc (c * x1, y1) (c * x2, y2) (c * x) = calc_frac NumQc (x1, y1) (x2, y2) x.
Proof. exact calc_frac_scale_axis. Qed.
Print Assumptions C15_linear_scale_axis.
Theorem C15_linear_shift_axis : forall s x1 y1 x2 y2 x : Qc, x2 - x1 <> 0 ->
  calc_frac NumQc (x1 + s, y1) (x2 + s, y2) (x + s) = calc_frac NumQc (x1, y1) (x2, y2) x.
Proof. exact calc_frac_shift. Qed.
Print Assumptions C15_linear_shift_axis.

Theorem C15_bilinear_scale_data : forall c x1 x2 y1 y2 x y z11 z12 z21 z22 : Qc,
  x2 - x1 <> 0 -> y2 - y1 <> 0 ->
  bilinear_lane NumQc x1 x2 y1 y2 x y (c * z11) (c * z12) (c * z21) (c * z22) =
  c * bilinear_lane NumQc x1 x2 y1 y2 x y z11 z12 z21 z22.
Proof. exact bilinear_scale_data. Qed.
Print Assumptions C15_bilinear_scale_data.
Theorem C15_bilinear_additive : forall x1 x2 y1 y2 x y z11 z12 z21 z22 w11 w12 w21 w22 : Qc,
  x2 - x1 <> 0 -> y2 - y1 <> 0 ->
  bilinear_lane NumQc x1 x2 y1 y2 x y (z11 + w11) (z12 + w12) (z21 + w21) (z22 + w22) =
  bilinear_lane NumQc x1 x2 y1 y2 x y z11 z12 z21 z22 + bilinear_lane NumQc x1 x2 y1 y2 x y w11 w12 w21 w22.
Proof. exact bilinear_additive. Qed.
Print Assumptions C15_bilinear_additive.
Theorem C15_bilinear_scale_axes : forall cx cy x1 x2 y1 y2 x y z11 z12 z21 z22 : Qc,
  cx <> 0 -> cy <> 0 -> x2 - x1 <> 0 -> y2 - y1 <> 0 ->
  bilinear_lane NumQc (cx * x1) (cx * x2) (cy * y1) (cy * y2) (cx * x) (cy * y) z11 z12 z21 z22 =
  bilinear_lane NumQc x1 x2 y1 y2 x y z11 z12 z21 z22.
Proof. exact bilinear_scale_axes. Qed.
Print Assumptions C15_bilinear_scale_axes.
Theorem C15_bilinear_shift_axes : forall sx sy x1 x2 y1 y2 x y z11 z12 z21 z22 : Qc,
  x2 - x1 <> 0 -> y2 - y1 <> 0 ->
  bilinear_lane NumQc (x1 + sx) (x2 + sx) (y1 + sy) (y2 + sy) (x + sx) (y + sy) z11 z12 z21 z22 =
  bilinear_lane NumQc x1 x2 y1 y2 x y z11 z12 z21 z22.
Proof. exact bilinear_shift_axes. Qed.
Print Assumptions C15_bilinear_shift_axes.

(* spline: the rows are homogeneous (degree 1 in axis differences on the left, degree 0 on the
   right; degree 1 in the data), so k/c resp. c*k resp. k+j solve the transformed rows; with
   the uniqueness theorem of C03 the transformed spline has these slopes; the pieces then obey
   the same laws *)
Theorem C15_spline_row_scale_axis : forall c hl hr yl ym yr kl km kr : Qc, c <> 0 -> hl <> 0 -> hr <> 0 ->
  (hr * kl + c2 NumQc * (hr + hl) * km + hl * kr = rhs_interior NumQc hr hl yl ym yr <->
   (c * hr) * (kl / c) + c2 NumQc * (c * hr + c * hl) * (km / c) + (c * hl) * (kr / c) =
   rhs_interior NumQc (c * hr) (c * hl) yl ym yr).
Proof. exact interior_row_scale_axis. Qed.
Print Assumptions C15_spline_row_scale_axis.
Theorem C15_spline_row_scale_data : forall c hl hr yl ym yr kl km kr : Qc, c <> 0 -> hl <> 0 -> hr <> 0 ->
  (hr * kl + c2 NumQc * (hr + hl) * km + hl * kr = rhs_interior NumQc hr hl yl ym yr <->
   hr * (c * kl) + c2 NumQc * (hr + hl) * (c * km) + hl * (c * kr) =
   rhs_interior NumQc hr hl (c * yl) (c * ym) (c * yr)).
Proof. exact interior_row_scale_data. Qed.
Print Assumptions C15_spline_row_scale_data.
Theorem C15_spline_row_additive : forall hl hr yl ym yr zl zm zr kl km kr jl jm jr : Qc, hl <> 0 -> hr <> 0 ->
  hr * kl + c2 NumQc * (hr + hl) * km + hl * kr = rhs_interior NumQc hr hl yl ym yr ->
  hr * jl + c2 NumQc * (hr + hl) * jm + hl * jr = rhs_interior NumQc hr hl zl zm zr ->
  hr * (kl + jl) + c2 NumQc * (hr + hl) * (km + jm) + hl * (kr + jr) =
  rhs_interior NumQc hr hl (yl + zl) (ym + zm) (yr + zr).
Proof. exact interior_row_additive. Qed.
Print Assumptions C15_spline_row_additive.
Theorem C15_spline_piece_scale_axis : forall c y yr k kr h u : Qc, c <> 0 -> h <> 0 ->
  piece y (k / c) (ca (k / c) (c * h) (yr - y)) (cb (kr / c) (c * h) (yr - y)) (c * h) (c * u) =
  piece y k (ca k h (yr - y)) (cb kr h (yr - y)) h u.
Proof. exact piece_scale_axis. Qed.
Print Assumptions C15_spline_piece_scale_axis.
Theorem C15_spline_piece_scale_data : forall c y yr k kr h u : Qc, h <> 0 ->
  piece (c * y) (c * k) (ca (c * k) h (c * yr - c * y)) (cb (c * kr) h (c * yr - c * y)) h u =
  c * piece y k (ca k h (yr - y)) (cb kr h (yr - y)) h u.
Proof. exact piece_scale_data. Qed.
Print Assumptions C15_spline_piece_scale_data.

(* ---------------- whole interpolators (every lane, every query, errors included) ---------------- *)

(* the segment lookup does not depend on the unit: any strictly increasing map of axis and query *)
Theorem C15_lookup_unit_free :
  forall g : Qc -> Qc, (forall a b, (this a < this b)%Q <-> (this (g a) < this (g b))%Q) ->
  forall (xs : list Qc) (x : Qc),
    StrictIncQc xs -> (2 <= length xs)%nat -> (Z.of_nat (length xs) <= two64)%Z ->
    lower_index NumQc (map g xs) (g x) = lower_index NumQc xs x.
Proof. exact lower_index_mono. Qed.
Print Assumptions C15_lookup_unit_free.

Theorem C15_linear_axis_units :
  forall (ax : list Qc) (data : list (list Qc)),
    StrictIncQc ax -> (2 <= length ax)%nat -> (Z.of_nat (length ax) <= two64)%Z -> length data = length ax ->
    forall (ext : bool) (c s x : Qc), 0 < c ->
      linear_interp NumQc ext (map (aff c s) ax) data (aff c s x) = linear_interp NumQc ext ax data x.
Proof. exact linear_axis_units. Qed.
Print Assumptions C15_linear_axis_units.

Theorem C15_linear_scale_data_list :
  forall (ax : list Qc) (data : list (list Qc)),
    StrictIncQc ax -> (2 <= length ax)%nat -> (Z.of_nat (length ax) <= two64)%Z -> length data = length ax ->
    forall (ext : bool) (c x : Qc),
      linear_interp NumQc ext ax (map (map (Qcmult c)) data) x =
      match linear_interp NumQc ext ax data x with Ok v => Ok (map (Qcmult c) v) | e => e end.
Proof. exact linear_scale_data. Qed.
Print Assumptions C15_linear_scale_data_list.

Theorem C15_linear_additive_list :
  forall (ax : list Qc) (data : list (list Qc)),
    StrictIncQc ax -> (2 <= length ax)%nat -> (Z.of_nat (length ax) <= two64)%Z -> length data = length ax ->
    forall (ext : bool) (data2 : list (list Qc)) (x : Qc) (v1 v2 : list Qc),
      length data2 = length ax ->
      (forall i, (i < length ax)%nat -> length (nth i data []) = length (nth i data2 [])) ->
      linear_interp NumQc ext ax data x = Ok v1 -> linear_interp NumQc ext ax data2 x = Ok v2 ->
      linear_interp NumQc ext ax (add_data data data2) x = Ok (map2 Qcplus v1 v2).
Proof. exact linear_additive. Qed.
Print Assumptions C15_linear_additive_list.

Theorem C15_bilinear_axis_units :
  forall (xax yax : list Qc) (data : list (list (list Qc))),
    StrictIncQc xax -> StrictIncQc yax -> (2 <= length xax)%nat -> (2 <= length yax)%nat ->
    (Z.of_nat (length xax) <= two64)%Z -> (Z.of_nat (length yax) <= two64)%Z ->
    length data = length xax -> (forall i, (i < length data)%nat -> length (nth i data []) = length yax) ->
    forall (ext : bool) (cx sx cy sy x y : Qc), 0 < cx -> 0 < cy ->
      bilinear_interp NumQc ext (map (aff cx sx) xax) (map (aff cy sy) yax) data (aff cx sx x) (aff cy sy y)
      = bilinear_interp NumQc ext xax yax data x y.
Proof. exact bilinear_axis_units. Qed.
Print Assumptions C15_bilinear_axis_units.

Theorem C15_bilinear_scale_data_list :
  forall (xax yax : list Qc) (data : list (list (list Qc))),
    StrictIncQc xax -> StrictIncQc yax -> (2 <= length xax)%nat -> (2 <= length yax)%nat ->
    (Z.of_nat (length xax) <= two64)%Z -> (Z.of_nat (length yax) <= two64)%Z ->
    length data = length xax -> (forall i, (i < length data)%nat -> length (nth i data []) = length yax) ->
    forall (ext : bool) (c x y : Qc),
      bilinear_interp NumQc ext xax yax (map (map (map (Qcmult c))) data) x y =
      match bilinear_interp NumQc ext xax yax data x y with Ok v => Ok (map (Qcmult c) v) | e => e end.
Proof. exact bilinear_scale_data_list. Qed.
Print Assumptions C15_bilinear_scale_data_list.

(* CubicSpline, any pair of end conditions: in the new units the slopes are k/c (axis x -> c*x+s, the
   derivative values of FirstDeriv / SecondDeriv converted: v/c resp. v/c^2) resp. c*k (data times c,
   derivative values times c) resp. k1 + k2 (sum of data sets) -- by uniqueness of the solution *)
Theorem C15_spline_slopes_axis_units :
  forall (xs : list Qc) (data : list (list Qc)) (L : nat) (c s : Qc), 0 < c ->
    (forall i, (i < length data)%nat -> length (nth i data []) = L) ->
    StrictIncQc xs -> length xs = length data -> (3 <= length data)%nat -> (0 < L)%nat ->
    forall j, (j < L)%nat -> forall (l r : single Qc) (K K' : list (list Qc)),
      solve_for_k NumQc xs data (IMixed l r) = Ok K ->
      solve_for_k NumQc (map (aff c s) xs) data
        (IMixed (conv_single (fun v => v / c) (fun v => v / (c * c)) l)
                (conv_single (fun v => v / c) (fun v => v / (c * c)) r)) = Ok K' ->
      lane_vec 0 j K' = map (fun k => k / c) (lane_vec 0 j K).
Proof. exact spline_slopes_axis_units. Qed.
Print Assumptions C15_spline_slopes_axis_units.

Theorem C15_spline_slopes_scale_data :
  forall (xs : list Qc) (data : list (list Qc)) (L : nat) (c : Qc),
    (forall i, (i < length data)%nat -> length (nth i data []) = L) ->
    StrictIncQc xs -> length xs = length data -> (3 <= length data)%nat -> (0 < L)%nat ->
    forall j, (j < L)%nat -> forall (l r : single Qc) (K K' : list (list Qc)),
      solve_for_k NumQc xs data (IMixed l r) = Ok K ->
      solve_for_k NumQc xs (map (map (Qcmult c)) data)
        (IMixed (conv_single (Qcmult c) (Qcmult c) l) (conv_single (Qcmult c) (Qcmult c) r)) = Ok K' ->
      lane_vec 0 j K' = map (Qcmult c) (lane_vec 0 j K).
Proof. exact spline_slopes_scale_data. Qed.
Print Assumptions C15_spline_slopes_scale_data.

(* Periodic boundary (n >= 4): by uniqueness of the solution of the cyclic system *)
Theorem C15_periodic_slopes_scale_data :
  forall (xs : list Qc) (data : list (list Qc)) (L j : nat), (j < L)%nat ->
    (forall i, (i < length data)%nat -> length (nth i data []) = L) ->
    StrictIncQc xs -> length xs = length data -> (4 <= length data)%nat ->
    forall (c : Qc) (i : nat), (i < length data)%nat ->
      nth j (nth i (periodic_k NumQc xs (map (map (Qcmult c)) data) (length data)) []) 0
      = c * nth j (nth i (periodic_k NumQc xs data (length data)) []) 0.
Proof. exact periodic_slopes_scale_data. Qed.
Print Assumptions C15_periodic_slopes_scale_data.

Theorem C15_periodic_slopes_axis_units :
  forall (xs : list Qc) (data : list (list Qc)) (L j : nat), (j < L)%nat ->
    (forall i, (i < length data)%nat -> length (nth i data []) = L) ->
    StrictIncQc xs -> length xs = length data -> (4 <= length data)%nat ->
    forall (c s : Qc) (i : nat), 0 < c -> (i < length data)%nat ->
      nth j (nth i (periodic_k NumQc (map (aff c s) xs) data (length data)) []) 0
      = nth j (nth i (periodic_k NumQc xs data (length data)) []) 0 / c.
Proof. exact periodic_slopes_axis_units. Qed.
Print Assumptions C15_periodic_slopes_axis_units.

(* ... and for the whole-data-set boundaries (NotAKnot / Natural / Clamped) the interpolators commute
   with the change of units, for every query (inside the range, or anywhere with extrapolation) *)
Theorem C15_spline_whole_axis_units :
  forall (xs : list Qc) (data : list (list Qc)) (L : nat) (c s : Qc), 0 < c ->
    (forall i, (i < length data)%nat -> length (nth i data []) = L) ->
    StrictIncQc xs -> length xs = length data -> (3 <= length data)%nat ->
    (Z.of_nat (length data) <= two64)%Z -> (0 < L)%nat ->
    forall (b : bc Qc) (l r : single Qc) (ext : bool) (trail : list nat) (sp sp' : spline_strat) (x : Qc) (v : list Qc),
      whole_lr b = Some (l, r) ->
      spline_build NumQc b ext xs data trail = Ok sp ->
      spline_build NumQc b ext (map (aff c s) xs) data trail = Ok sp' ->
      (ext = false -> in_closed_range NumQc 0 xs x = true) ->
      spline_interp NumQc sp xs data x = Ok v ->
      spline_interp NumQc sp' (map (aff c s) xs) data (aff c s x) = Ok v.
Proof. exact spline_whole_axis_units. Qed.
Print Assumptions C15_spline_whole_axis_units.

Theorem C15_spline_whole_scale_data :
  forall (xs : list Qc) (data : list (list Qc)) (L : nat) (c : Qc),
    (forall i, (i < length data)%nat -> length (nth i data []) = L) ->
    StrictIncQc xs -> length xs = length data -> (3 <= length data)%nat ->
    (Z.of_nat (length data) <= two64)%Z -> (0 < L)%nat ->
    forall (b : bc Qc) (l r : single Qc) (ext : bool) (trail : list nat) (sp sp' : spline_strat) (x : Qc) (v : list Qc),
      whole_lr b = Some (l, r) ->
      spline_build NumQc b ext xs data trail = Ok sp ->
      spline_build NumQc b ext xs (map (map (Qcmult c)) data) trail = Ok sp' ->
      (ext = false -> in_closed_range NumQc 0 xs x = true) ->
      spline_interp NumQc sp xs data x = Ok v ->
      spline_interp NumQc sp' xs (map (map (Qcmult c)) data) x = Ok (map (Qcmult c) v).
Proof. exact spline_whole_scale_data. Qed.
Print Assumptions C15_spline_whole_scale_data.

Theorem C15_spline_whole_additive :
  forall (xs : list Qc) (d1 d2 : list (list Qc)) (L : nat),
    (forall i, (i < length d1)%nat -> length (nth i d1 []) = L) ->
    (forall i, (i < length d2)%nat -> length (nth i d2 []) = L) ->
    StrictIncQc xs -> length xs = length d1 -> length xs = length d2 -> (3 <= length d1)%nat ->
    (Z.of_nat (length d1) <= two64)%Z -> (0 < L)%nat ->
    forall (b : bc Qc) (l r : single Qc) (ext : bool) (trail : list nat) (sp1 sp2 sp12 : spline_strat)
           (x : Qc) (v1 v2 : list Qc),
      whole_lr b = Some (l, r) ->
      spline_build NumQc b ext xs d1 trail = Ok sp1 ->
      spline_build NumQc b ext xs d2 trail = Ok sp2 ->
      spline_build NumQc b ext xs (add_data d1 d2) trail = Ok sp12 ->
      (ext = false -> in_closed_range NumQc 0 xs x = true) ->
      spline_interp NumQc sp1 xs d1 x = Ok v1 ->
      spline_interp NumQc sp2 xs d2 x = Ok v2 ->
      spline_interp NumQc sp12 xs (add_data d1 d2) x = Ok (map2 Qcplus v1 v2).
Proof. exact spline_whole_additive. Qed.
Print Assumptions C15_spline_whole_additive.

(* Periodic boundary (n >= 4), interpolator level, queries inside the range *)
Theorem C15_spline_periodic_scale_data :
  forall (xs : list Qc) (data : list (list Qc)) (L : nat),
    (forall i, (i < length data)%nat -> length (nth i data []) = L) ->
    StrictIncQc xs -> length xs = length data -> (4 <= length data)%nat ->
    (Z.of_nat (length data) <= two64)%Z -> (0 < L)%nat ->
    forall (c : Qc) (ext : bool) (trail : list nat) (sp sp' : spline_strat) (x : Qc) (v : list Qc),
      spline_build NumQc BPeriodic ext xs data trail = Ok sp ->
      spline_build NumQc BPeriodic ext xs (map (map (Qcmult c)) data) trail = Ok sp' ->
      in_closed_range NumQc 0 xs x = true ->
      spline_interp NumQc sp xs data x = Ok v ->
      spline_interp NumQc sp' xs (map (map (Qcmult c)) data) x = Ok (map (Qcmult c) v).
Proof. exact spline_periodic_scale_data. Qed.
Print Assumptions C15_spline_periodic_scale_data.

Theorem C15_spline_periodic_axis_units :
  forall (xs : list Qc) (data : list (list Qc)) (L : nat),
    (forall i, (i < length data)%nat -> length (nth i data []) = L) ->
    StrictIncQc xs -> length xs = length data -> (4 <= length data)%nat ->
    (Z.of_nat (length data) <= two64)%Z -> (0 < L)%nat ->
    forall (c s : Qc) (ext : bool) (trail : list nat) (sp sp' : spline_strat) (x : Qc) (v : list Qc), 0 < c ->
      spline_build NumQc BPeriodic ext xs data trail = Ok sp ->
      spline_build NumQc BPeriodic ext (map (aff c s) xs) data trail = Ok sp' ->
      in_closed_range NumQc 0 xs x = true ->
      spline_interp NumQc sp xs data x = Ok v ->
      spline_interp NumQc sp' (map (aff c s) xs) data (aff c s x) = Ok v.
Proof. exact spline_periodic_axis_units. Qed.
Print Assumptions C15_spline_periodic_axis_units.

(* per-lane (Individual) boundaries, interpolator level, derivative values of every lane converted *)
Theorem C15_spline_individual_scale_data :
  forall (xs : list Qc) (data : list (list Qc)) (L : nat),
    (forall i, (i < length data)%nat -> length (nth i data []) = L) ->
    StrictIncQc xs -> length xs = length data -> (3 <= length data)%nat ->
    (Z.of_nat (length data) <= two64)%Z -> (0 < L)%nat ->
    forall (c : Qc) (per_lane : list (rowbc Qc)) (shape : list nat) (ext : bool) (trail : list nat)
           (sp sp' : spline_strat) (x : Qc) (v : list Qc),
      length per_lane = L ->
      spline_build NumQc (BIndividual per_lane shape) ext xs data trail = Ok sp ->
      spline_build NumQc (BIndividual (map (conv_row (Qcmult c) (Qcmult c)) per_lane) shape) ext xs (map (map (Qcmult c)) data) trail = Ok sp' ->
      (ext = false -> in_closed_range NumQc 0 xs x = true) ->
      spline_interp NumQc sp xs data x = Ok v ->
      spline_interp NumQc sp' xs (map (map (Qcmult c)) data) x = Ok (map (Qcmult c) v).
Proof. exact spline_individual_scale_data. Qed.
Print Assumptions C15_spline_individual_scale_data.

Theorem C15_spline_individual_axis_units :
  forall (xs : list Qc) (data : list (list Qc)) (L : nat),
    (forall i, (i < length data)%nat -> length (nth i data []) = L) ->
    StrictIncQc xs -> length xs = length data -> (3 <= length data)%nat ->
    (Z.of_nat (length data) <= two64)%Z -> (0 < L)%nat ->
    forall (c s : Qc) (per_lane : list (rowbc Qc)) (shape : list nat) (ext : bool) (trail : list nat)
           (sp sp' : spline_strat) (x : Qc) (v : list Qc), 0 < c ->
      length per_lane = L ->
      spline_build NumQc (BIndividual per_lane shape) ext xs data trail = Ok sp ->
      spline_build NumQc (BIndividual (map (conv_row (fun v => v / c) (fun v => v / (c * c))) per_lane) shape) ext
                   (map (aff c s) xs) data trail = Ok sp' ->
      (ext = false -> in_closed_range NumQc 0 xs x = true) ->
      spline_interp NumQc sp xs data x = Ok v ->
      spline_interp NumQc sp' (map (aff c s) xs) data (aff c s x) = Ok v.
Proof. exact spline_individual_axis_units. Qed.
Print Assumptions C15_spline_individual_axis_units.

Theorem C15_bilinear_additive_list :
  forall (xax yax : list Qc) (d1 d2 : list (list (list Qc))),
    StrictIncQc xax -> StrictIncQc yax -> (2 <= length xax)%nat -> (2 <= length yax)%nat ->
    (Z.of_nat (length xax) <= two64)%Z -> (Z.of_nat (length yax) <= two64)%Z ->
    length d1 = length xax -> length d2 = length xax ->
    (forall i, (i < length d1)%nat -> length (nth i d1 []) = length yax) ->
    (forall i, (i < length d2)%nat -> length (nth i d2 []) = length yax) ->
    (forall i j, (i < length xax)%nat -> (j < length yax)%nat -> length (cell d1 i j) = length (cell d2 i j)) ->
    forall (ext : bool) (x y : Qc) (v1 v2 : list Qc),
      bilinear_interp NumQc ext xax yax d1 x y = Ok v1 -> bilinear_interp NumQc ext xax yax d2 x y = Ok v2 ->
      bilinear_interp NumQc ext xax yax (add_data2 d1 d2) x y = Ok (map2 Qcplus v1 v2).
Proof. exact bilinear_additive_list. Qed.
Print Assumptions C15_bilinear_additive_list.

Theorem C15_periodic_slopes_additive :
  forall (xs : list Qc) (d1 d2 : list (list Qc)) (L j : nat), (j < L)%nat ->
    (forall i, (i < length d1)%nat -> length (nth i d1 []) = L) ->
    (forall i, (i < length d2)%nat -> length (nth i d2 []) = L) ->
    StrictIncQc xs -> length xs = length d1 -> length xs = length d2 -> (4 <= length d1)%nat ->
    forall i, (i < length d1)%nat ->
      nth j (nth i (periodic_k NumQc xs (add_data d1 d2) (length d1)) []) 0
      = nth j (nth i (periodic_k NumQc xs d1 (length d1)) []) 0 + nth j (nth i (periodic_k NumQc xs d2 (length d1)) []) 0.
Proof. exact periodic_slopes_additive. Qed.
Print Assumptions C15_periodic_slopes_additive.

(* Partial: additivity of Periodic (slopes proved above) and per-lane splines at interpolator level,
   Periodic outside the range (C07 covers the wrap) (slope statements above cover any Mixed pair) and the bit-for-bit clause
   for powers of two are validated by the metamorphic runs (exact at rationals, bitwise at f64). *)

Example C15_ex : (* axis in other units: x -> 2x + 3 *)
  let xs := [qc 0 1; qc 1 1; qc 3 1; qc 4 1] in
  let data := [[qc 0 1]; [qc 1 1]; [qc 0 1]; [qc 2 1]] in
  match spline_build NumQc BNatural false xs data [], spline_build NumQc BNatural false (map (aff (qc 2 1) (qc 3 1)) xs) data [] with
  | Ok sp, Ok sp' =>
      match spline_interp NumQc sp xs data (qc 5 2), spline_interp NumQc sp' (map (aff (qc 2 1) (qc 3 1)) xs) data (qc 8 1) with
      | Ok [v], Ok [w] => qc_eqb v w
      | _, _ => false
      end
  | _, _ => false
  end = true.
Proof. vm_compute. reflexivity. Qed.
