(* C15 -- Results are independent of the units of the axis and linear in the data. *)
From Coq Require Import List Bool Arith ZArith QArith Qcanon.
From NI Require Import Num Base Lookup Linear Interp Spline SplineAlgebra LinearExact Units.
Import ListNotations.
Local Open Scope Qc_scope.

Theorem C15_linear_scale_data : forall c x1 y1 x2 y2 x : Qc, x2 - x1 <> 0 ->
  calc_frac NumQc (x1, c * y1) (x2, c * y2) x = c * calc_frac NumQc (x1, y1) (x2, y2) x.
Proof. exact calc_frac_scale_data. Qed.
Print Assumptions C15_linear_scale_data.
Theorem C15_linear_additive : forall x1 y1 z1 x2 y2 z2 x : Qc, x2 - x1 <> 0 ->
  calc_frac NumQc (x1, y1 + z1) (x2, y2 + z2) x =
  calc_frac NumQc (x1, y1) (x2, y2) x + calc_frac NumQc (x1, z1) (x2, z2) x.
Proof. exact calc_frac_additive. Qed.
Print Assumptions C15_linear_additive.
Theorem C15_linear_scale_axis : forall c x1 y1 x2 y2 x : Qc, c <> 0 -> x2 - x1 <> 0 ->
  calc_frac NumQc (c * x1, y1) (c * x2, y2) (c * x) = calc_frac NumQc (x1, y1) (x2, y2) x.
Proof. exact calc_frac_scale_axis. Qed.
Print Assumptions C15_linear_scale_axis.
Theorem C15_linear_shift_axis : forall s x1 y1 x2 y2 x : Qc, x2 - x1 <> 0 ->
  calc_frac NumQc (x1 + s, y1) (x2 + s, y2) (x + s) = calc_frac NumQc (x1, y1) (x2, y2) x.
Proof. exact calc_frac_shift. Qed.
Print Assumptions C15_linear_shift_axis.

Theorem C15_bilinear_scale_data : forall c x1 x2 y1 y2 x y z11 z12 z21 z22 : Qc,
  x2 - x1 <> 0 -> y2 - y1 <> 0 ->
  bilinear_lane NumQc x1 x2 y1 y2 x y (c * z11) (c * z12) (c * z21) (c * z22) =
  c * bilinear_lane NumQc x1 x2 y1 y2 x y z11 z12 z21 z22.
Proof. exact bilinear_scale_data. Qed.
Print Assumptions C15_bilinear_scale_data.
Theorem C15_bilinear_additive : forall x1 x2 y1 y2 x y z11 z12 z21 z22 w11 w12 w21 w22 : Qc,
  x2 - x1 <> 0 -> y2 - y1 <> 0 ->
  bilinear_lane NumQc x1 x2 y1 y2 x y (z11 + w11) (z12 + w12) (z21 + w21) (z22 + w22) =
  bilinear_lane NumQc x1 x2 y1 y2 x y z11 z12 z21 z22 + bilinear_lane NumQc x1 x2 y1 y2 x y w11 w12 w21 w22.
Proof. exact bilinear_additive. Qed.
Print Assumptions C15_bilinear_additive.
Theorem C15_bilinear_scale_axes : forall cx cy x1 x2 y1 y2 x y z11 z12 z21 z22 : Qc,
  cx <> 0 -> cy <> 0 -> x2 - x1 <> 0 -> y2 - y1 <> 0 ->
  bilinear_lane NumQc (cx * x1) (cx * x2) (cy * y1) (cy * y2) (cx * x) (cy * y) z11 z12 z21 z22 =
  bilinear_lane NumQc x1 x2 y1 y2 x y z11 z12 z21 z22.
Proof. exact bilinear_scale_axes. Qed.
Print Assumptions C15_bilinear_scale_axes.
Theorem C15_bilinear_shift_axes : forall sx sy x1 x2 y1 y2 x y z11 z12 z21 z22 : Qc,
  x2 - x1 <> 0 -> y2 - y1 <> 0 ->
  bilinear_lane NumQc (x1 + sx) (x2 + sx) (y1 + sy) (y2 + sy) (x + sx) (y + sy) z11 z12 z21 z22 =
  bilinear_lane NumQc x1 x2 y1 y2 x y z11 z12 z21 z22.
Proof. exact bilinear_shift_axes. Qed.
Print Assumptions C15_bilinear_shift_axes.

(* spline: the rows are homogeneous (degree 1 in axis differences on the left, degree 0 on the
   right; degree 1 in the data), so k/c resp. c*k resp. k+j solve the transformed rows; with
   the uniqueness theorem of C03 the transformed spline has these slopes; the pieces then obey
   the same laws *)
Theorem C15_spline_row_scale_axis : forall c hl hr yl ym yr kl km kr : Qc, c <> 0 -> hl <> 0 -> hr <> 0 ->
  (hr * kl + c2 NumQc * (hr + hl) * km + hl * kr = rhs_interior NumQc hr hl yl ym yr <->
   (c * hr) * (kl / c) + c2 NumQc * (c * hr + c * hl) * (km / c) + (c * hl) * (kr / c) =
   rhs_interior NumQc (c * hr) (c * hl) yl ym yr).
Proof. exact interior_row_scale_axis. Qed.
Print Assumptions C15_spline_row_scale_axis.
Theorem C15_spline_row_scale_data : forall c hl hr yl ym yr kl km kr : Qc, c <> 0 -> hl <> 0 -> hr <> 0 ->
  (hr * kl + c2 NumQc * (hr + hl) * km + hl * kr = rhs_interior NumQc hr hl yl ym yr <->
   hr * (c * kl) + c2 NumQc * (hr + hl) * (c * km) + hl * (c * kr) =
   rhs_interior NumQc hr hl (c * yl) (c * ym) (c * yr)).
Proof. exact interior_row_scale_data. Qed.
Print Assumptions C15_spline_row_scale_data.
Theorem C15_spline_row_additive : forall hl hr yl ym yr zl zm zr kl km kr jl jm jr : Qc, hl <> 0 -> hr <> 0 ->
  hr * kl + c2 NumQc * (hr + hl) * km + hl * kr = rhs_interior NumQc hr hl yl ym yr ->
  hr * jl + c2 NumQc * (hr + hl) * jm + hl * jr = rhs_interior NumQc hr hl zl zm zr ->
  hr * (kl + jl) + c2 NumQc * (hr + hl) * (km + jm) + hl * (kr + jr) =
  rhs_interior NumQc hr hl (yl + zl) (ym + zm) (yr + zr).
Proof. exact interior_row_additive. Qed.
Print Assumptions C15_spline_row_additive.
Theorem C15_spline_piece_scale_axis : forall c y yr k kr h u : Qc, c <> 0 -> h <> 0 ->
  piece y (k / c) (ca (k / c) (c * h) (yr - y)) (cb (kr / c) (c * h) (yr - y)) (c * h) (c * u) =
  piece y k (ca k h (yr - y)) (cb kr h (yr - y)) h u.
Proof. exact piece_scale_axis. Qed.
Print Assumptions C15_spline_piece_scale_axis.
Theorem C15_spline_piece_scale_data : forall c y yr k kr h u : Qc, h <> 0 ->
  piece (c * y) (c * k) (ca (c * k) h (c * yr - c * y)) (cb (c * kr) h (c * yr - c * y)) h u =
  c * piece y k (ca k h (yr - y)) (cb kr h (yr - y)) h u.
Proof. exact piece_scale_data. Qed.
Print Assumptions C15_spline_piece_scale_data.
(* Partial: the list-level statement "build on transformed inputs = transformed build" for the
   spline (all boundary rows + uniqueness) and the bit-for-bit clause for powers of two are
   validated by the metamorphic runs (exact at rationals, bitwise at f64), not proved. *)
