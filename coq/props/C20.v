(* C20 -- Linear and Bilinear results depend only on the bracketing data points. *)
From Coq Require Import List Bool Arith ZArith QArith Qcanon.
From NI Require Import Num Base Lookup Linear LookupProofs LinearProofs.
Import ListNotations.
Local Open Scope nat_scope.

(* no assumption on the element type or its operations: NaN / infinity elsewhere included *)
Theorem C20_linear_depends_only_on_bracket :
  forall (T : Type) (N : Num T) (d : T) ext ax ax' (data data' : list (list T)) x i,
    range_guard N ext ax x = Ok tt -> range_guard N ext ax' x = Ok tt ->
    lower_index N ax x = Ok i -> lower_index N ax' x = Ok i ->
    i + 1 < length ax -> length data = length ax ->
    i + 1 < length ax' -> length data' = length ax' ->
    nth i ax d = nth i ax' d -> nth (i + 1) ax d = nth (i + 1) ax' d ->
    nth i data [] = nth i data' [] -> nth (i + 1) data [] = nth (i + 1) data' [] ->
    linear_interp N ext ax data x = linear_interp N ext ax' data' x.
Proof. exact @linear_depends_only_on_bracket. Qed.
Print Assumptions C20_linear_depends_only_on_bracket.

Theorem C20_bilinear_depends_only_on_cell :
  forall (T : Type) (N : Num T) (d : T) ext xax yax (data : list (list (list T))) xax' yax' data' x y ix iy,
    range_guard N ext xax x = Ok tt -> range_guard N ext yax y = Ok tt ->
    range_guard N ext xax' x = Ok tt -> range_guard N ext yax' y = Ok tt ->
    lower_index N xax x = Ok ix -> lower_index N yax y = Ok iy ->
    lower_index N xax' x = Ok ix -> lower_index N yax' y = Ok iy ->
    ix + 1 < length xax -> iy + 1 < length yax -> length data = length xax ->
    (forall i, i < length data -> length (nth i data []) = length yax) ->
    ix + 1 < length xax' -> iy + 1 < length yax' -> length data' = length xax' ->
    (forall i, i < length data' -> length (nth i data' []) = length yax') ->
    nth ix xax d = nth ix xax' d -> nth (ix + 1) xax d = nth (ix + 1) xax' d ->
    nth iy yax d = nth iy yax' d -> nth (iy + 1) yax d = nth (iy + 1) yax' d ->
    cell data ix iy = cell data' ix iy -> cell data ix (iy + 1) = cell data' ix (iy + 1) ->
    cell data (ix + 1) iy = cell data' (ix + 1) iy ->
    cell data (ix + 1) (iy + 1) = cell data' (ix + 1) (iy + 1) ->
    bilinear_interp N ext xax yax data x y = bilinear_interp N ext xax' yax' data' x y.
Proof. exact @bilinear_depends_only_on_cell. Qed.
Print Assumptions C20_bilinear_depends_only_on_cell.

(* moving non-bracketing knots without reordering the axis does not move the bracket *)
Theorem C20_bracket_stable_under_outside_moves :
  forall (T : Type) (N : Num T) (valid : T -> Prop), OrderLaws N valid ->
  forall (d : T) (ax ax' : list T) (x : T) (i : nat),
    StrictInc N valid d ax -> StrictInc N valid d ax' -> length ax' = length ax -> valid x ->
    nth i ax' d = nth i ax d -> nth (i + 1) ax' d = nth (i + 1) ax d ->
    bracket N d ax x i -> bracket N d ax' x i.
Proof. exact @bracket_stable_under_outside_moves. Qed.
Print Assumptions C20_bracket_stable_under_outside_moves.

(* together with C11 (the lookup returns the unique bracket) the index is the same on both axes *)
Example C20_ex :
  linear_interp NumXQ false [XFin (qc 0 1); XFin (qc 1 1); XFin (qc 2 1); XFin (qc 3 1)]
     [[XNaN]; [XFin (qc 4 1)]; [XFin (qc 8 1)]; [XPInf]] (XFin (qc 3 2)) = Ok [XFin (qc 6 1)].
Proof. vm_compute. reflexivity. Qed.
