#!/bin/bash
# Builds the framework from files on disk only (offline): the whole Coq development (full .vo)
# and the Rust harness against /repo.
set -e
python3 /verif/extract/dims.py /verif/coq/gen/DimsGen.v || exit 1
cd /verif/coq
coq_makefile -f _CoqProject -o Makefile > /dev/null 2>&1
timeout 3400 make -j16 > /verif/work_setup_coq.log 2>&1 || { tail -30 /verif/work_setup_coq.log; echo "coq build failed"; exit 1; }
cd /verif/harness
export CARGO_NET_OFFLINE=true
export RUSTFLAGS="--cfg ndarray_interp_verif"
cargo build --release --offline > /verif/work_setup_cargo.log 2>&1 || { tail -30 /verif/work_setup_cargo.log; echo "cargo build failed"; exit 1; }
echo "setup ok"
