#!/bin/bash
# usage: eval_mutants.sh <logfile> <spec>...   spec = "Cxx-mN:CHECK1,CHECK2" or "Cxx:CHECK1,CHECK2" (all of m1..m3)
# For each seeded mutant: confirm it (scratch worktree: suite passes, demo fails with it / passes without),
# apply it to /repo, run the quick tier of the listed checks, undo it.  One line per mutant in <logfile>.
cd /verif
log=$1; shift
for spec in "$@"; do
  who=${spec%%:*}; checks=$(echo ${spec#*:} | tr ',' ' ')
  if [[ $who == *-m* ]]; then dirs=/verif/seeded/$who; else dirs=$(ls -d /verif/seeded/$who-m*); fi
  for m in $dirs; do
    c=$(/verif/confirm_mutant.sh $m 2>&1 | tail -1)
    r=$(/verif/run_seeded.sh $m/patch.diff $checks 2>&1 | tr '\n' ' ')
    echo "== $(basename $m) | CONFIRM: $c | CHECKS: $r" >> $log
  done
done
echo ALLDONE >> $log
