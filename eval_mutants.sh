#!/bin/bash
# usage: eval_mutants.sh <PROP> <worktree> <checks...>  -- confirm + run checks for every mutant dir of a worktree
P=$1; WT=$2; shift; shift
for m in $WT/mutants/m*/; do
  name=$(basename $m)
  c=$(/verif/confirm_mutant.sh $m 2>&1 | tail -1)
  r=$(/verif/run_seeded.sh $m/patch.diff "$@" 2>&1 | tr '\n' ' ')
  echo "== $P-$name | CONFIRM: $c | CHECKS: $r"
done
